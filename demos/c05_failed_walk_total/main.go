// C05: a block play that fails after its coinbase leaves the reported total supply inflated;
// every retry inflates it again although the state pointer never moves.
package main

import (
	"fmt"

	"demos/internal/env"
)

func main() {
	e := env.New(true, nil)
	defer e.Close()
	e.Show("after genesis")
	bad := e.BobSpendsGenesisOutput(7, 5, "n1") // correctly signed, but output #7 does not exist
	blk := e.Block(e.Root.Blockid, 1, "b1", bad)
	fmt.Println("ledger.ConfirmBlock:", e.Ledger.ConfirmBlock(blk, false).Succ)
	for i := 1; i <= 3; i++ {
		err := e.State.Walk(blk.Blockid, false)
		e.Show(fmt.Sprintf("walk #%d err=%v", i, err != nil))
	}
	fmt.Println("pointer still at genesis:", string(e.State.GetLatestBlockid()) == string(e.Root.Blockid))
}

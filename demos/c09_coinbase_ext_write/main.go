// C09/C07: the coinbase transaction of a block is exempt from verification, but its ext write set
// is applied like any other: a producer can write arbitrary contract / ACL state with no request
// whose re-execution would produce it.
package main

import (
	"fmt"

	"demos/internal/env"

	"github.com/xuperchain/xupercore/bcs/ledger/xledger/state/utxo/txhash"
	"github.com/xuperchain/xupercore/protos"
)

func main() {
	e := env.New(true, nil)
	defer e.Close()
	blk := e.Block(e.Root.Blockid, 1, "b1")
	cb := blk.Transactions[0]
	cb.TxInputsExt = []*protos.TxInputExt{{Bucket: "XCAccount", Key: []byte("XC1111111111111111@xuper")}}
	cb.TxOutputsExt = []*protos.TxOutputExt{{Bucket: "XCAccount", Key: []byte("XC1111111111111111@xuper"), Value: []byte(`{"pm":{"rule":1,"acceptValue":1},"aksWeight":{"` + e.Miner + `":1}}`)}}
	cb.Txid, _ = txhash.MakeTransactionID(cb)
	blk = e.Block(e.Root.Blockid, 0, "b1", cb) // re-format so that merkle root / id / signature cover the edited coinbase
	fmt.Println("IsValidTx for every tx + ledger.VerifyBlock:", e.Accepts(blk))
	fmt.Println("ledger.ConfirmBlock:", e.Ledger.ConfirmBlock(blk, false).Succ)
	fmt.Println("state.Walk: err =", e.State.Walk(blk.Blockid, false))
	v, err := e.State.CreateXMReader().Get("XCAccount", []byte("XC1111111111111111@xuper"))
	fmt.Printf("XCAccount/XC1111111111111111@xuper = %s (err=%v)\n", v.GetPureData().GetValue(), err)
}

// C12 (guarded-by): the balance cache is replaced by clearBalanceCache without mutexBalance
// while GetBalance / AddBalance use it under that mutex only. Run with -race.
package main

import (
	"fmt"
	"sync"
	"time"

	"demos/internal/env"
)

func main() {
	e := env.New(true, nil)
	defer e.Close()
	stop := time.Now().Add(2 * time.Second)
	var wg sync.WaitGroup
	wg.Add(2)
	go func() {
		defer wg.Done()
		for time.Now().Before(stop) {
			e.State.GetBalance(env.Bob) // query API: takes no state mutex
		}
	}()
	go func() {
		defer wg.Done()
		for time.Now().Before(stop) {
			e.State.Walk(e.Root.Blockid, false) // no-op walk; still clears the balance cache
		}
	}()
	wg.Wait()
	fmt.Println("done (see the race report above when run with -race)")
}

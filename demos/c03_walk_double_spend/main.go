// C03/C02: a block holding two signed spends of ONE output replays through Walk (the path
// every synchronised block takes) and both spends are applied.
package main

import (
	"fmt"

	"demos/internal/env"
)

func main() {
	e := env.New(true, nil)
	defer e.Close()
	e.Show("after genesis")
	A := e.BobSpendsGenesisOutput(0, 5, "n1")
	B := e.BobSpendsGenesisOutput(0, 7, "n2")
	blk := e.Block(e.Root.Blockid, 1, "b1", A, B)
	fmt.Println("IsValidTx for every tx + ledger.VerifyBlock:", e.Accepts(blk))
	fmt.Println("ledger.ConfirmBlock:", e.Ledger.ConfirmBlock(blk, false).Succ)
	fmt.Println("state.Walk(block with two spends of the same output): err =", e.State.Walk(blk.Blockid, false))
	e.Show("after walk")
}

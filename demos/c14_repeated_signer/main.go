// C14: one member's valid signature repeated k times satisfies the quorum check.
package main

import (
	"fmt"
	"os"

	cbft "github.com/xuperchain/xupercore/kernel/consensus/base/driver/chained-bft"
	cCrypto "github.com/xuperchain/xupercore/kernel/consensus/base/driver/chained-bft/crypto"
	cpb "github.com/xuperchain/xupercore/kernel/consensus/base/driver/chained-bft/pb"
	cctx "github.com/xuperchain/xupercore/kernel/consensus/context"
	"github.com/xuperchain/xupercore/kernel/mock"
	crypto_client "github.com/xuperchain/xupercore/lib/crypto/client"
	"github.com/xuperchain/xupercore/lib/logs"
)

func main() {
	econf, _ := mock.NewEnvConfForTest()
	dir, _ := os.MkdirTemp("", "xvdemo")
	defer os.RemoveAll(dir)
	logs.InitLog(econf.GenConfFilePath(econf.LogConf), dir)
	log, _ := logs.NewLogger("", "demo")
	crypt, err := crypto_client.CreateCryptoClient(crypto_client.CryptoTypeDefault)
	if err != nil {
		panic(err)
	}
	sk, err := crypt.GenerateKeyBySeed([]byte("seed-for-one-validator-0123456789"))
	if err != nil {
		panic(err)
	}
	pkStr, _ := crypt.GetEcdsaPublicKeyJsonFormatStr(sk)
	addrStr, _ := crypt.GetAddressFromPublicKey(&sk.PublicKey)
	cc := cCrypto.NewCBFTCrypto(&cctx.Address{Address: addrStr, PrivateKey: sk, PublicKey: &sk.PublicKey, PublicKeyStr: pkStr}, crypt)
	genesis := &cbft.ProposalNode{In: &cbft.QuorumCert{VoteInfo: &cbft.VoteInfo{ProposalId: []byte("g")}}}
	p1 := &cbft.ProposalNode{In: &cbft.QuorumCert{VoteInfo: &cbft.VoteInfo{ProposalId: []byte("p1"), ProposalView: 1, ParentId: []byte("g")}}}
	genesis.Sons = append(genesis.Sons, p1)
	rules := &cbft.DefaultSaftyRules{Crypto: cc, QcTree: &cbft.QCPendingTree{Genesis: genesis, Root: genesis, HighQC: p1, Log: log}, Log: log}
	one, err := cc.SignVoteMsg([]byte("p1"))
	if err != nil {
		panic(err)
	}
	validators := []string{addrStr, "v2", "v3", "v4", "v5", "v6", "v7"}
	for k := 1; k <= 6; k++ {
		signs := []*cpb.QuorumCertSign{}
		for i := 0; i < k; i++ {
			signs = append(signs, one)
		}
		qc := &cbft.QuorumCert{VoteInfo: &cbft.VoteInfo{ProposalId: []byte("p1"), ProposalView: 1, ParentId: []byte("g")}, SignInfos: signs}
		prop := &cbft.QuorumCert{VoteInfo: &cbft.VoteInfo{ProposalId: []byte("p2"), ProposalView: 2, ParentId: []byte("p1"), ParentView: 1}}
		fmt.Printf("7 validators, certificate = the same member's signature x%d: CheckProposal err=%v\n", k, rules.CheckProposal(prop, qc, validators))
	}
}

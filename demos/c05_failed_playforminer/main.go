// C05: PlayForMiner of a block whose timer (autogen) transaction fails after the award was
// applied returns an error; the deferred clean-up resets the balance cache, but the award
// stays in the UTXO cache and in the total supply.
package main

import (
	"fmt"
	"math/big"

	"demos/internal/env"

	txn "github.com/xuperchain/xupercore/bcs/ledger/xledger/tx"
	"github.com/xuperchain/xupercore/protos"
)

func main() {
	e := env.New(true, nil)
	defer e.Close()
	// a timer transaction whose read set cites a version that is not current
	auto, err := txn.GenerateAutoTxWithRWSets(
		[]*protos.TxInputExt{{Bucket: "b", Key: []byte("k"), RefTxid: []byte("no-such-tx"), RefOffset: 0}},
		[]*protos.TxOutputExt{{Bucket: "b", Key: []byte("k"), Value: []byte("v")}})
	env.Must(err)
	blk := e.Block(e.Root.Blockid, 1, "b1", auto)
	fmt.Println("ledger.ConfirmBlock:", e.Ledger.ConfirmBlock(blk, false).Succ)
	e.Show("before")
	fmt.Println("State.PlayForMiner:", e.State.PlayForMiner(blk.Blockid))
	e.Show("after the failed PlayForMiner")
	ins, _, total, err1 := e.State.SelectUtxos(e.Miner, big.NewInt(1), false, false)
	fmt.Printf("SelectUtxos(miner, 1): err=%v inputs=%d total=%v\n", err1, len(ins), total)
	fmt.Println("pointer still at genesis:", string(e.State.GetLatestBlockid()) == string(e.Root.Blockid))
}

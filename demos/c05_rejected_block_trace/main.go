// C05/C04: two REJECTED blocks leave edits in the header cache; the next valid confirmation
// persists the genesis header with InTrunk=false.
package main

import (
	"fmt"

	"demos/internal/env"
)

func main() {
	e := env.New(false, nil)
	defer e.Close()
	l := e.Ledger
	X := e.Block(e.Root.Blockid, 2, "X") // invalid: two coinbase transactions
	fmt.Printf("ConfirmBlock(X, two coinbase)      succ=%v ExistBlock(X)=%v\n", l.ConfirmBlock(X, false).Succ, l.ExistBlock(X.Blockid))
	Y := e.Block(X.Blockid, 1, "Y") // child of the rejected block
	fmt.Printf("ConfirmBlock(Y, child of X)        succ=%v (Y.Height was set to %d: X was found in the header cache)\n", l.ConfirmBlock(Y, false).Succ, Y.Height)
	Z := e.Block(e.Root.Blockid, 1, "Z") // perfectly valid
	ok := l.ConfirmBlock(Z, false).Succ
	h, _ := l.QueryBlockHeader(e.Root.Blockid)
	fmt.Printf("ConfirmBlock(Z, valid child of genesis) succ=%v; genesis header on disk: InTrunk=%v; IsTxInTrunk(genesis tx)=%v\n", ok, h.InTrunk, l.IsTxInTrunk(e.RootTx.Txid))
}

// C03: after a block wrote key K, two successive pool transactions that both cite the block's
// version of K are admitted (the second one is stale).
package main

import (
	"fmt"
	"time"

	"demos/internal/env"

	"github.com/xuperchain/xupercore/bcs/ledger/xledger/state/utxo/txhash"
	pb "github.com/xuperchain/xupercore/bcs/ledger/xledger/xldgpb"
	"github.com/xuperchain/xupercore/protos"
)

func main() {
	e := env.New(true, func(root *pb.Transaction) { // genesis also creates b/K
		root.TxInputsExt = []*protos.TxInputExt{{Bucket: "b", Key: []byte("K")}}
		root.TxOutputsExt = []*protos.TxOutputExt{{Bucket: "b", Key: []byte("K"), Value: []byte("v0")}}
	})
	defer e.Close()
	cur := func() string {
		v, err := e.State.CreateXMReader().Get("b", []byte("K"))
		env.Must(err)
		return fmt.Sprintf("%x_%d=%q", v.RefTxid[:4], v.RefOffset, v.PureData.Value)
	}
	mk := func(val string) *pb.Transaction {
		tx := &pb.Transaction{Version: 1, Nonce: val, Timestamp: time.Now().UnixNano(), Initiator: "x"}
		tx.TxInputsExt = []*protos.TxInputExt{{Bucket: "b", Key: []byte("K"), RefTxid: e.RootTx.Txid, RefOffset: 0}}
		tx.TxOutputsExt = []*protos.TxOutputExt{{Bucket: "b", Key: []byte("K"), Value: []byte(val)}}
		tx.Txid, _ = txhash.MakeTransactionID(tx)
		return tx
	}
	fmt.Println("after block: K at", cur())
	fmt.Println("State.DoTx(A, cites the block's version):", e.State.DoTx(mk("vA")), "-> K at", cur())
	fmt.Println("State.DoTx(B, cites the SAME, superseded version):", e.State.DoTx(mk("vB")), "-> K at", cur())
	txs, _ := e.State.GetUnconfirmedTx(false)
	fmt.Println("pending transactions superseding one version:", len(txs), "(expected 1)")
}

// C01: undoing a transaction that deleted a never-existing key does not restore the state.
package main

import (
	"fmt"
	"time"

	"demos/internal/env"

	"github.com/xuperchain/xupercore/bcs/ledger/xledger/state/utxo/txhash"
	pb "github.com/xuperchain/xupercore/bcs/ledger/xledger/xldgpb"
	"github.com/xuperchain/xupercore/protos"
)

func main() {
	e := env.New(true, nil)
	defer e.Close()
	get := func() string {
		v, err := e.State.CreateXMReader().Get("b", []byte("Z"))
		if err != nil {
			return "ERROR " + err.Error()
		}
		return fmt.Sprintf("version=%x_%d value=%q", v.RefTxid, v.RefOffset, v.PureData.Value)
	}
	fmt.Println("key never written:      ", get())
	D := &pb.Transaction{Version: 1, Nonce: "d", Timestamp: time.Now().UnixNano(), Initiator: "x"}
	D.TxInputsExt = []*protos.TxInputExt{{Bucket: "b", Key: []byte("Z")}}
	D.TxOutputsExt = []*protos.TxOutputExt{{Bucket: "b", Key: []byte("Z"), Value: []byte("\x00")}}
	D.Txid, _ = txhash.MakeTransactionID(D)
	fmt.Println("DoTx(delete b/Z):", e.State.DoTx(D))
	_, _, err := e.State.RollBackUnconfirmedTx()
	fmt.Println("undo:", err)
	fmt.Println("after do+undo, same key:", get())
	it := e.State.GetLDB().NewIteratorWithPrefix([]byte("ZD"))
	for it.Next() {
		fmt.Printf("residual recycle-table row %q -> %s\n", it.Key(), it.Value())
	}
	it.Release()
}

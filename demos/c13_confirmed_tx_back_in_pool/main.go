// C13/C03: a pending transaction that arrives confirmed in a synchronised block is put back into the pool by
// recoverUnconfirmedTx (its "already confirmed?" guard tests `err != nil && isConfirm`, which is never true), so the
// node's next own block carries it a second time and the ledger refuses that block (ErrTxDuplicated) - for ever.
// The transaction needs no input that its own confirmation consumes (here: a zero-amount, no-input transaction).
package main

import (
	"fmt"
	"time"

	"github.com/xuperchain/xupercore/bcs/ledger/xledger/state/utxo/txhash"
	pb "github.com/xuperchain/xupercore/bcs/ledger/xledger/xldgpb"
	"github.com/xuperchain/xupercore/protos"

	"demos/internal/env"
)

func main() {
	e := env.New(true, nil)
	defer e.Close()
	tx := &pb.Transaction{Version: 1, Nonce: "n1", Timestamp: time.Now().UnixNano(), Initiator: env.Bob, AuthRequire: []string{env.Bob}, Desc: []byte("note")}
	sig, err := txhash.ProcessSignTx(e.Crypt, tx, []byte(env.BobPrivateKey))
	env.Must(err)
	tx.InitiatorSigns = []*protos.SignatureInfo{{PublicKey: env.BobPubkey, Sign: sig}}
	tx.AuthRequireSigns = tx.InitiatorSigns
	tx.Txid, _ = txhash.MakeTransactionID(tx)
	ok, verr := e.State.VerifyTx(tx)
	fmt.Println("VerifyTx(T):", ok, verr)
	fmt.Println("DoTx(T):", e.State.DoTx(tx))
	pool, _ := e.State.GetUnconfirmedTx(false)
	fmt.Println("pool size after admission:", len(pool))

	// another producer's block carries T; the node synchronises onto it (ConfirmBlock + Walk)
	b1 := e.Block(e.Root.Blockid, 1, "b1", tx)
	fmt.Println("ConfirmBlock(b1 carrying T):", e.Ledger.ConfirmBlock(b1, false).Succ)
	fmt.Println("Walk(b1):", e.State.Walk(b1.Blockid, false))
	time.Sleep(500 * time.Millisecond) // recoverUnconfirmedTx runs asynchronously
	has, _ := e.Ledger.HasTransaction(tx.Txid)
	pool, _ = e.State.GetUnconfirmedTx(false)
	fmt.Println("T confirmed in the ledger:", has, " pool size after the walk:", len(pool))

	// the node's own next block, packed from its pool
	b2 := e.Block(b1.Blockid, 1, "b2", pool...)
	st := e.Ledger.ConfirmBlock(b2, false)
	fmt.Println("ConfirmBlock(own block packed from the pool):", st.Succ, st.Error)
}

// C07: State.VerifyTx can answer (false, nil); Chain.SubmitTx (chain.go:258-265) only looks at
// the error, so the transaction goes on to DoTx. The two calls below are SubmitTx's own.
package main

import (
	"encoding/hex"
	"fmt"
	"math/big"
	"time"

	"demos/internal/env"

	"github.com/xuperchain/xupercore/bcs/ledger/xledger/state/utxo/txhash"
	pb "github.com/xuperchain/xupercore/bcs/ledger/xledger/xldgpb"
	"github.com/xuperchain/xupercore/protos"
)

func main() {
	e := env.New(true, nil)
	defer e.Close()
	// the regulator has marked the genesis transaction (ledger API used by the modify-block feature)
	env.Must(e.Ledger.UpdateBlockChainData(hex.EncodeToString(e.RootTx.Txid), "00", "", "", 0))
	e.Show("before")
	T := &pb.Transaction{Version: 1, Nonce: "t", Timestamp: time.Now().UnixNano(), Initiator: env.Bob, AuthRequire: []string{env.Bob}}
	T.TxInputs = []*protos.TxInput{{RefTxid: e.RootTx.Txid, RefOffset: 0, FromAddr: []byte(env.Bob), Amount: big.NewInt(10000000).Bytes()}}
	T.TxOutputs = []*protos.TxOutput{{ToAddr: []byte("mallory"), Amount: big.NewInt(10000000).Bytes()}}
	T.Txid, _ = txhash.MakeTransactionID(T) // NO signature of any kind
	ok, err := e.State.VerifyTx(T)
	fmt.Printf("State.VerifyTx(unsigned T) = (%v, %v)\n", ok, err)
	if err != nil { // SubmitTx: `_, err := t.ctx.State.VerifyTx(tx); if err != nil { return ErrTxVerifyFailed }`
		fmt.Println("rejected")
		return
	}
	fmt.Println("SubmitTx would continue; State.DoTx(T) =", e.State.DoTx(T))
	m, _ := e.State.GetBalance("mallory")
	e.Show("after")
	fmt.Println("mallory =", m)
}

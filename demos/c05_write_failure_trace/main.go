// C05: a block play whose batch write fails (injected storage error) leaves the total
// supply and the pending meta (MetaTmp: irreversible height) advanced in memory; the next
// successful block persists/publishes them, so the node disagrees with its own chain.
package main

import (
	"errors"
	"fmt"

	"demos/internal/env"

	"github.com/xuperchain/xupercore/lib/storage/kvdb"
	ldb "github.com/xuperchain/xupercore/lib/storage/kvdb/leveldb"
)

var failAt, writes int

type db struct{ kvdb.Database }

func (d *db) NewBatch() kvdb.Batch { return &batch{d.Database.NewBatch()} }

type batch struct{ kvdb.Batch }

func (b *batch) Write() error {
	writes++
	if writes == failAt {
		return errors.New("injected storage write error")
	}
	return b.Batch.Write()
}

func main() {
	kvdb.Register("failldb", func(p *kvdb.KVParameter) (kvdb.Database, error) {
		d, err := ldb.NewKVDBInstance(p)
		if err != nil {
			return nil, err
		}
		return &db{d}, nil
	})
	env.StateEngine = "failldb"
	env.GenesisExtra = `"irreversibleslidewindow":"1"`
	e := env.New(true, nil)
	defer e.Close()
	show := func(tag string) {
		m := e.State.GetMeta()
		fmt.Printf("%-46s total=%s irreversible=%d pointer@genesis=%v\n", tag, e.State.GetTotal(), m.IrreversibleBlockHeight, string(e.State.GetLatestBlockid()) == string(e.Root.Blockid))
	}
	show("after genesis")
	b1 := e.Block(e.Root.Blockid, 1, "b1")
	fmt.Println("ledger.ConfirmBlock(b1):", e.Ledger.ConfirmBlock(b1, false).Succ)
	b2 := e.Block(b1.Blockid, 1, "b2")
	fmt.Println("ledger.ConfirmBlock(b2):", e.Ledger.ConfirmBlock(b2, false).Succ)
	failAt = writes + 2 // the walk's first write is the (empty) pool rollback; the second is the batch of b1
	fmt.Println("Walk(b1) with a failing write:", e.State.Walk(b1.Blockid, false))
	show("after the failed walk (nothing was persisted)")
	fmt.Println("Walk(b1) again:", e.State.Walk(b1.Blockid, false))
	show("after b1 really played (expected total 31000000)")
	// the same on the undo side: walking back to genesis with a failing write
	failAt = writes + 2
	fmt.Println("Walk(genesis) with a failing write:", e.State.Walk(e.Root.Blockid, false))
	show("after the failed undo (pointer still at b1)")
}

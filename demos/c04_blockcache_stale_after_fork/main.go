// C04/C05: a trunk switch rewrites the headers of every block that leaves or joins the main chain
// (InTrunk, NextHash) but does not invalidate the full-block cache: QueryBlock - and IsTxInTrunk,
// which consults the same cache - keep answering from the pre-switch copies, while the database
// (and QueryBlockHeader, and a reopened ledger) say otherwise.
package main

import (
	"fmt"

	"demos/internal/env"

	ledger_pkg "github.com/xuperchain/xupercore/bcs/ledger/xledger/ledger"
)

func main() {
	e := env.New(false, nil)
	defer e.Close()
	a1 := e.Block(e.Root.Blockid, 1, "a1", e.BobSpendsGenesisOutput(0, 1000, "t"))
	fmt.Println("confirm a1 (extends the tip):", e.Ledger.ConfirmBlock(a1, false).Succ)
	tx := a1.Transactions[1]
	b1 := e.Block(e.Root.Blockid, 1, "b1")
	fmt.Println("confirm b1 (sibling of a1, side branch):", e.Ledger.ConfirmBlock(b1, false).Succ)
	// restart: the caches are cold; a client then reads a1 and genesis (both enter the full-block cache)
	e.Ledger.Close()
	l2, err := ledger_pkg.OpenLedger(e.LCtx)
	env.Must(err)
	e.Ledger = l2
	if _, err := e.Ledger.QueryBlock(a1.Blockid); err != nil {
		panic(err)
	}
	if _, err := e.Ledger.QueryBlock(e.Root.Blockid); err != nil {
		panic(err)
	}
	b2 := e.Block(b1.Blockid, 1, "b2")
	st := e.Ledger.ConfirmBlock(b2, false)
	fmt.Println("confirm b2 (longer: trunk switches to b1<-b2):", st.Succ, "trunkSwitch =", st.TrunkSwitch)
	full, _ := e.Ledger.QueryBlock(a1.Blockid)
	head, _ := e.Ledger.QueryBlockHeader(a1.Blockid)
	fmt.Printf("a1 after the switch: QueryBlock.InTrunk = %v   QueryBlockHeader.InTrunk = %v (the stored header)\n", full.InTrunk, head.InTrunk)
	fmt.Printf("IsTxInTrunk(transaction of a1) = %v   (its block is off the main chain)\n", e.Ledger.IsTxInTrunk(tx.Txid))
	root, _ := e.Ledger.QueryBlock(e.Root.Blockid)
	rhead, _ := e.Ledger.QueryBlockHeader(e.Root.Blockid)
	fmt.Printf("genesis: QueryBlock.NextHash = %x..   stored header NextHash = %x..   (b1 = %x..)\n", root.NextHash[:4], rhead.NextHash[:4], b1.Blockid[:4])
}

// C04: Truncate removes headers, height index and branch info of the cut blocks but leaves their
// rows in the confirmed-transaction table: transaction lookups keep answering for blocks that
// no longer exist.
package main

import (
	"fmt"

	"demos/internal/env"
)

func main() {
	e := env.New(false, nil)
	defer e.Close()
	l := e.Ledger
	b1 := e.Block(e.Root.Blockid, 1, "b1")
	fmt.Println("confirm b1:", l.ConfirmBlock(b1, false).Succ)
	b2 := e.Block(b1.Blockid, 1, "b2")
	fmt.Println("confirm b2:", l.ConfirmBlock(b2, false).Succ)
	b3 := e.Block(b2.Blockid, 1, "b3")
	fmt.Println("confirm b3:", l.ConfirmBlock(b3, false).Succ)
	tx3 := b3.Transactions[0].Txid
	fmt.Println("Truncate(b1):", l.Truncate(b1.Blockid), " tip==b1:", string(l.GetMeta().TipBlockid) == string(b1.Blockid), "height:", l.GetMeta().TrunkHeight)
	fmt.Println("ExistBlock(b3):", l.ExistBlock(b3.Blockid))
	has, _ := l.HasTransaction(tx3)
	t, err := l.QueryTransaction(tx3)
	fmt.Printf("HasTransaction(tx of b3)=%v QueryTransaction err=%v (its Blockid still names b3: %v)\n", has, err, t != nil && string(t.Blockid) == string(b3.Blockid))
	_, err = l.QueryBlockByTxid(tx3)
	fmt.Println("QueryBlockByTxid(tx of b3):", err, " IsTxInTrunk:", l.IsTxInTrunk(tx3))
	h1, _ := l.QueryBlockHeader(b1.Blockid)
	fmt.Printf("new tip header: NextHash still points at b2: %v\n", string(h1.NextHash) == string(b2.Blockid))
}

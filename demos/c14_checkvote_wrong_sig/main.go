// C14: CheckVote accepts a vote whose (well-formed) signature is over ANOTHER proposal id.
package main

import (
	"fmt"
	"os"

	cbft "github.com/xuperchain/xupercore/kernel/consensus/base/driver/chained-bft"
	cCrypto "github.com/xuperchain/xupercore/kernel/consensus/base/driver/chained-bft/crypto"
	cpb "github.com/xuperchain/xupercore/kernel/consensus/base/driver/chained-bft/pb"
	cctx "github.com/xuperchain/xupercore/kernel/consensus/context"
	"github.com/xuperchain/xupercore/kernel/mock"
	crypto_client "github.com/xuperchain/xupercore/lib/crypto/client"
	"github.com/xuperchain/xupercore/lib/logs"
)

func main() {
	econf, _ := mock.NewEnvConfForTest()
	dir, _ := os.MkdirTemp("", "xvdemo")
	defer os.RemoveAll(dir)
	logs.InitLog(econf.GenConfFilePath(econf.LogConf), dir)
	log, _ := logs.NewLogger("", "demo")
	crypt, err := crypto_client.CreateCryptoClient(crypto_client.CryptoTypeDefault)
	if err != nil {
		panic(err)
	}
	sk, err := crypt.GenerateKeyBySeed([]byte("seed-for-one-validator-0123456789"))
	if err != nil {
		panic(err)
	}
	pkStr, _ := crypt.GetEcdsaPublicKeyJsonFormatStr(sk)
	addrStr, _ := crypt.GetAddressFromPublicKey(&sk.PublicKey)
	cc := cCrypto.NewCBFTCrypto(&cctx.Address{Address: addrStr, PrivateKey: sk, PublicKey: &sk.PublicKey, PublicKeyStr: pkStr}, crypt)
	genesis := &cbft.ProposalNode{In: &cbft.QuorumCert{VoteInfo: &cbft.VoteInfo{ProposalId: []byte("g")}}}
	p1 := &cbft.ProposalNode{In: &cbft.QuorumCert{VoteInfo: &cbft.VoteInfo{ProposalId: []byte("p1"), ProposalView: 1, ParentId: []byte("g")}}}
	genesis.Sons = append(genesis.Sons, p1)
	rules := &cbft.DefaultSaftyRules{Crypto: cc, QcTree: &cbft.QCPendingTree{Genesis: genesis, Root: genesis, HighQC: p1, Log: log}, Log: log}
	one, err := cc.SignVoteMsg([]byte("p1"))
	if err != nil {
		panic(err)
	}
	validators := []string{addrStr, "v2", "v3", "v4"}
	good := &cbft.QuorumCert{VoteInfo: &cbft.VoteInfo{ProposalId: []byte("p1"), ProposalView: 1, ParentId: []byte("g")}, SignInfos: []*cpb.QuorumCertSign{one}}
	fmt.Println("vote for p1 signed over p1:      CheckVote err =", rules.CheckVote(good, "log", validators))
	other, _ := cc.SignVoteMsg([]byte("some-other-proposal"))
	bad := &cbft.QuorumCert{VoteInfo: &cbft.VoteInfo{ProposalId: []byte("p1"), ProposalView: 1, ParentId: []byte("g")}, SignInfos: []*cpb.QuorumCertSign{other}}
	fmt.Println("vote for p1 signed over another id: CheckVote err =", rules.CheckVote(bad, "log", validators), " (expected: rejected)")
}


// C05: ConfirmBlock adds the block to the block cache even when its batch write failed
// (injected storage error): the running ledger then answers QueryBlock for a block a
// reopened ledger does not have.
package main

import (
	"errors"
	"fmt"

	"demos/internal/env"

	"github.com/xuperchain/xupercore/lib/storage/kvdb"
	ldb "github.com/xuperchain/xupercore/lib/storage/kvdb/leveldb"
)

var failNext bool

type db struct{ kvdb.Database }

func (d *db) NewBatch() kvdb.Batch { return &batch{d.Database.NewBatch()} }

type batch struct{ kvdb.Batch }

func (b *batch) Write() error {
	if failNext {
		failNext = false
		return errors.New("injected storage write error")
	}
	return b.Batch.Write()
}

func main() {
	kvdb.Register("failldb", func(p *kvdb.KVParameter) (kvdb.Database, error) {
		d, err := ldb.NewKVDBInstance(p)
		if err != nil {
			return nil, err
		}
		return &db{d}, nil
	})
	env.LedgerEngine = "failldb"
	e := env.New(false, nil)
	defer e.Close()
	b1 := e.Block(e.Root.Blockid, 1, "b1")
	failNext = true
	st := e.Ledger.ConfirmBlock(b1, false)
	fmt.Println("ConfirmBlock(b1) with a failing write: succ =", st.Succ, "err =", st.Error)
	fmt.Println("ExistBlock(b1) (database) =", e.Ledger.ExistBlock(b1.Blockid), " tip is still genesis:", string(e.Ledger.GetMeta().TipBlockid) == string(e.Root.Blockid))
	blk, err := e.Ledger.QueryBlock(b1.Blockid)
	fmt.Printf("QueryBlock(b1) on the running ledger: found=%v err=%v\n", blk != nil, err)
	hdr, err := e.Ledger.QueryBlockHeader(b1.Blockid)
	fmt.Printf("QueryBlockHeader(b1) on the running ledger: found=%v err=%v\n", hdr != nil, err)
}

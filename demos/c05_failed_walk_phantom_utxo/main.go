// C05: a block play that fails after its coinbase leaves the coinbase output in the
// in-memory UTXO cache (CacheFiller.Commit runs before the block's batch is written):
// output selection then hands out an output that does not exist in the database, and a
// reopened state machine does not know it.
package main

import (
	"fmt"
	"math/big"

	"demos/internal/env"
)

func main() {
	e := env.New(true, nil)
	defer e.Close()
	bad := e.BobSpendsGenesisOutput(7, 5, "n1") // correctly signed, but output #7 does not exist
	blk := e.Block(e.Root.Blockid, 1, "b1", bad)
	fmt.Println("ledger.ConfirmBlock:", e.Ledger.ConfirmBlock(blk, false).Succ)
	miner := string(blk.Proposer)
	_, _, _, err0 := e.State.SelectUtxos(miner, big.NewInt(1), false, false)
	fmt.Println("before the walk: SelectUtxos(miner, 1) err =", err0)
	err := e.State.Walk(blk.Blockid, false)
	fmt.Println("Walk (fails at the second transaction):", err)
	ins, _, total, err1 := e.State.SelectUtxos(miner, big.NewInt(1), false, false)
	fmt.Printf("after the failed walk: SelectUtxos(miner, 1) err=%v inputs=%d total=%v\n", err1, len(ins), total)
	bal, _ := e.State.GetBalance(miner)
	fmt.Println("GetBalance(miner) (database scan) =", bal, " pointer still at genesis:", string(e.State.GetLatestBlockid()) == string(e.Root.Blockid))
}

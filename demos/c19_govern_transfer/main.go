// C19: an incoming transfer erases the receiver's locks; a self-transfer mints tokens.
package main

import (
	"errors"
	"fmt"

	xledger "github.com/xuperchain/xupercore/bcs/ledger/xledger/ledger"
	cmock "github.com/xuperchain/xupercore/kernel/consensus/mock"
	"github.com/xuperchain/xupercore/kernel/contract"
	gov "github.com/xuperchain/xupercore/kernel/contract/proposal/govern_token"
)

// kctx: the repo's FakeKContext with the real sandbox's "missing key is an error" semantics.
type kctx struct {
	*cmock.FakeKContext
	db                map[string][]byte
	initiator, caller string
	args              map[string][]byte
}

func (c *kctx) Args() map[string][]byte        { return c.args }
func (c *kctx) Initiator() string              { return c.initiator }
func (c *kctx) Caller() string                 { return c.caller }
func (c *kctx) ResourceLimit() contract.Limits { return contract.Limits{XFee: 1 << 40} }
func (c *kctx) Get(bucket string, key []byte) ([]byte, error) {
	v, ok := c.db[bucket+"/"+string(key)]
	if !ok {
		return nil, errors.New("Key not found")
	}
	return v, nil
}
func (c *kctx) Put(bucket string, key, value []byte) error {
	c.db[bucket+"/"+string(key)] = value
	return nil
}

func main() {
	db := map[string][]byte{}
	km := gov.NewKernContractMethod("xuper", 1000, []xledger.Predistribution{{Address: "A", Quota: "100"}, {Address: "B", Quota: "50"}})
	call := func(tag string, f func(contract.KContext) (*contract.Response, error), initiator, caller string, args map[string]string) {
		a := map[string][]byte{}
		for k, v := range args {
			a[k] = []byte(v)
		}
		_, err := f(&kctx{FakeKContext: cmock.NewFakeKContext(nil, nil), db: db, initiator: initiator, caller: caller, args: a})
		fmt.Printf("%-42s err=%v\n   A=%s\n   B=%s supply=%s\n", tag, err, db["governToken/balanceOf_A"], db["governToken/balanceOf_B"], db["governToken/totalSupply"])
	}
	call("init", km.InitGovernTokens, "", "", nil)
	call("A locks 60 (ordinary)", km.LockGovernTokens, "", "$proposal", map[string]string{"from": "A", "amount": "60", "lock_type": "ordinary"})
	call("B transfers 10 to A", km.TransferGovernTokens, "B", "", map[string]string{"to": "A", "amount": "10"})
	call("A transfers 100 (60 should be locked)", km.TransferGovernTokens, "A", "", map[string]string{"to": "B", "amount": "100"})
	call("B transfers 140 to itself", km.TransferGovernTokens, "B", "", map[string]string{"to": "B", "amount": "140"})
}

// C07: a block transaction flagged Autogen, without ext sets and without ANY signature, spends
// Bob's output: neither block path runs a verifier on that class of transaction.
package main

import (
	"fmt"
	"math/big"
	"time"

	"demos/internal/env"

	"github.com/xuperchain/xupercore/bcs/ledger/xledger/state/utxo/txhash"
	pb "github.com/xuperchain/xupercore/bcs/ledger/xledger/xldgpb"
	"github.com/xuperchain/xupercore/protos"
)

func main() {
	e := env.New(true, nil)
	defer e.Close()
	e.Show("after genesis")
	steal := &pb.Transaction{Version: 1, Nonce: "x", Timestamp: time.Now().UnixNano(), Autogen: true}
	steal.TxInputs = []*protos.TxInput{{RefTxid: e.RootTx.Txid, RefOffset: 0, FromAddr: []byte(env.Bob), Amount: big.NewInt(10000000).Bytes()}}
	steal.TxOutputs = []*protos.TxOutput{{ToAddr: []byte(e.Miner), Amount: big.NewInt(10000000).Bytes()}}
	steal.Txid, _ = txhash.MakeTransactionID(steal) // no InitiatorSigns, no AuthRequireSigns, no Initiator
	blk := e.Block(e.Root.Blockid, 1, "b1", steal)
	fmt.Println("IsValidTx for every tx + ledger.VerifyBlock:", e.Accepts(blk))
	fmt.Println("ledger.ConfirmBlock:", e.Ledger.ConfirmBlock(blk, false).Succ)
	fmt.Println("state.Walk: err =", e.State.Walk(blk.Blockid, false))
	e.Show("after walk")
}

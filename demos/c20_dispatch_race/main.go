// C20: Dispatch reads the subscriber table before taking the lock; a concurrent Register of a
// NEW message type writes the same map -> Go runtime "fatal error: concurrent map read and map write".
package main

import (
	"fmt"
	"os"
	"sync"
	"time"

	"github.com/xuperchain/xupercore/kernel/mock"
	nctx "github.com/xuperchain/xupercore/kernel/network/context"
	"github.com/xuperchain/xupercore/kernel/network/p2p"
	"github.com/xuperchain/xupercore/lib/logs"
	pb "github.com/xuperchain/xupercore/protos"
)

type stream struct{}

func (stream) Send(*pb.XuperMessage) error { return nil }

func main() {
	ecfg, _ := mock.NewEnvConfForTest()
	dir, _ := os.MkdirTemp("", "xvdemo")
	defer os.RemoveAll(dir)
	logs.InitLog(ecfg.GenConfFilePath(ecfg.LogConf), dir)
	netCtx, _ := nctx.NewNetCtx(ecfg)
	d := p2p.NewDispatcher(netCtx)
	ch := make(chan *pb.XuperMessage, 1024)
	d.Register(p2p.NewSubscriber(netCtx, pb.XuperMessage_GET_BLOCK, ch))
	var wg sync.WaitGroup
	stop := time.Now().Add(5 * time.Second)
	wg.Add(2)
	go func() { // registers / unregisters subscribers of many other types
		defer wg.Done()
		for i := 0; time.Now().Before(stop); i++ {
			typ := pb.XuperMessage_MessageType(100 + i%50)
			s := p2p.NewSubscriber(netCtx, typ, ch)
			d.Register(s)
			d.UnRegister(s)
		}
	}()
	go func() { // dispatches fresh messages of the registered type
		defer wg.Done()
		for i := 0; time.Now().Before(stop); i++ {
			msg := p2p.NewMessage(pb.XuperMessage_GET_BLOCK, &pb.XuperMessage{}, p2p.WithBCName("xuper"), p2p.WithLogId(fmt.Sprint(i)))
			d.Dispatch(msg, stream{})
			for len(ch) > 0 {
				<-ch
			}
		}
	}()
	wg.Wait()
	fmt.Println("survived 5 s without a crash (the race is timing dependent; run with -race to see the report)")
}

// C10: a range scan yields keys deleted earlier in the same execution.
package main

import (
	"fmt"

	"github.com/xuperchain/xupercore/kernel/contract"
	"github.com/xuperchain/xupercore/kernel/contract/sandbox"
	"github.com/xuperchain/xupercore/kernel/ledger"
)

func main() {
	state := sandbox.NewMemXModel()
	for _, k := range []string{"k1", "k2"} {
		state.Put("b", []byte(k), &ledger.VersionedData{RefTxid: []byte("t"), PureData: &ledger.PureData{Bucket: "b", Key: []byte(k), Value: []byte("v" + k)}})
	}
	mc := sandbox.NewXModelCache(&contract.SandboxConfig{XMReader: state})
	mc.Put("b", []byte("k3"), []byte("v3"))
	mc.Del("b", []byte("k1"))
	mc.Del("b", []byte("k3"))
	it, err := mc.Select("b", []byte("a"), []byte("z"))
	if err != nil {
		panic(err)
	}
	for it.Next() {
		fmt.Printf("Select yields key=%s value=%q\n", it.Key(), it.Value())
	}
	fmt.Println("expected: only k2")
}

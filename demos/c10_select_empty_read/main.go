// C10: a range scan yields a key that never existed, once the execution has read it.
package main

import (
	"fmt"

	"github.com/xuperchain/xupercore/kernel/contract"
	"github.com/xuperchain/xupercore/kernel/contract/sandbox"
	"github.com/xuperchain/xupercore/kernel/ledger"
)

// backing state that answers a missing key the way XModel.Get does: an empty versioned record, no error
type state struct{ *sandbox.MemXModel }

func (s state) Get(bucket string, key []byte) (*ledger.VersionedData, error) {
	v, err := s.MemXModel.Get(bucket, key)
	if err != nil {
		return &ledger.VersionedData{PureData: &ledger.PureData{Bucket: bucket, Key: key}}, nil
	}
	return v, nil
}

func main() {
	m := sandbox.NewMemXModel()
	for _, k := range []string{"k1", "k2"} {
		m.Put("b", []byte(k), &ledger.VersionedData{RefTxid: []byte("t"), PureData: &ledger.PureData{Bucket: "b", Key: []byte(k), Value: []byte("v" + k)}})
	}
	mc := sandbox.NewXModelCache(&contract.SandboxConfig{XMReader: state{m}})
	_, err := mc.Get("b", []byte("k0")) // never written
	fmt.Println("Get(k0):", err)
	it, err := mc.Select("b", []byte("a"), []byte("z"))
	if err != nil {
		panic(err)
	}
	for it.Next() {
		fmt.Printf("Select yields key=%s value=%q\n", it.Key(), it.Value())
	}
	fmt.Println("expected: k1, k2 only")
}

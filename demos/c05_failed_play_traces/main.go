// C05: State.Play (PlayAndRepost) of a block whose second transaction fails returns an
// error, yet the award of its first transaction stays in the balance cache, the UTXO cache
// and the total supply. The pointer does not move and nothing was written.
package main

import (
	"fmt"
	"math/big"

	"demos/internal/env"
)

func main() {
	e := env.New(true, nil)
	defer e.Close()
	bad := e.BobSpendsGenesisOutput(7, 5, "n1") // correctly signed, but output #7 does not exist
	blk := e.Block(e.Root.Blockid, 1, "b1", bad)
	fmt.Println("ledger.ConfirmBlock:", e.Ledger.ConfirmBlock(blk, false).Succ)
	e.Show("before (this caches the miner's balance)")
	err := e.State.Play(blk.Blockid)
	fmt.Println("State.Play(block whose 2nd tx spends a missing output):", err)
	e.Show("after the failed play")
	ins, _, total, err1 := e.State.SelectUtxos(e.Miner, big.NewInt(1), false, false)
	fmt.Printf("SelectUtxos(miner, 1): err=%v inputs=%d total=%v\n", err1, len(ins), total)
	fmt.Println("pointer still at genesis:", string(e.State.GetLatestBlockid()) == string(e.Root.Blockid))
}

// Package env builds a throw-away ledger (+ state machine) on a temp dir for the demos.
// Demos are NOT part of the deciding machinery: they only exhibit, against the real
// code, the failing input/history behind a finding that a static rule reports.
package env

import (
	"crypto/ecdsa"
	"fmt"
	"io/ioutil"
	"math/big"
	"os"
	"time"

	ledger_pkg "github.com/xuperchain/xupercore/bcs/ledger/xledger/ledger"
	"github.com/xuperchain/xupercore/bcs/ledger/xledger/state"
	"github.com/xuperchain/xupercore/bcs/ledger/xledger/state/context"
	"github.com/xuperchain/xupercore/bcs/ledger/xledger/state/utxo/txhash"
	txn "github.com/xuperchain/xupercore/bcs/ledger/xledger/tx"
	pb "github.com/xuperchain/xupercore/bcs/ledger/xledger/xldgpb"
	"github.com/xuperchain/xupercore/kernel/mock"
	crypto_client "github.com/xuperchain/xupercore/lib/crypto/client"
	crypto_base "github.com/xuperchain/xupercore/lib/crypto/client/base"
	"github.com/xuperchain/xupercore/lib/logs"
	_ "github.com/xuperchain/xupercore/lib/storage/kvdb/leveldb"
	"github.com/xuperchain/xupercore/protos"
)

const (
	Bob           = "dpzuVdosQrF2kmzumhVeFQZa1aYcdgFpN"
	BobPubkey     = `{"Curvname":"P-256","X":74695617477160058757747208220371236837474210247114418775262229497812962582435,"Y":51348715319124770392993866417088542497927816017012182211244120852620959209571}`
	BobPrivateKey = `{"Curvname":"P-256","X":74695617477160058757747208220371236837474210247114418775262229497812962582435,"Y":51348715319124770392993866417088542497927816017012182211244120852620959209571,"D":29079635126530934056640915735344231956621504557963207107451663058887647996601}`
	Alice         = "WNWk3ekXeM5M2232dY2uCJmEqWhfQiDYT"
)

// StateEngine, when set, is the kvdb engine the state machine is opened with (demos of
// storage faults register a wrapping engine and set this before calling New).
var StateEngine string

// LedgerEngine, when set, is the kvdb engine the ledger is opened with.
var LedgerEngine string

// GenesisExtra is spliced into the ledger's genesis configuration (e.g. a slide window).
var GenesisExtra string

var genesisConf = []byte(`{"version":"1","predistribution":[{"address":"dpzuVdosQrF2kmzumhVeFQZa1aYcdgFpN","quota":"100"}],"maxblocksize":"16","award":"1000000","decimals":"8","award_decay":{"height_gap":31536000,"ratio":1},"gas_price":{"cpu_rate":1000,"mem_rate":1000000,"disk_rate":1,"xfee_rate":1},"new_account_resource_amount":1000,"genesis_consensus":{"name":"single","config":{"miner":"dpzuVdosQrF2kmzumhVeFQZa1aYcdgFpN","period":3000}}}`)

func Must(err error) {
	if err != nil {
		panic(err)
	}
}

type Env struct {
	Dir    string
	Ledger *ledger_pkg.Ledger
	State  *state.State
	Crypt  crypto_base.CryptoClient
	RootTx *pb.Transaction
	Root   *pb.InternalBlock
	Miner  string // address of the key that signs the demo blocks
	LCtx   *ledger_pkg.LedgerCtx
	key    *ecdsa.PrivateKey
}

// New creates ledger + genesis (Bob 10000000, Alice 20000000). edit may change the genesis tx
// before it is hashed; withState also opens a state machine and plays genesis.
func New(withState bool, edit func(root *pb.Transaction)) *Env {
	e := &Env{}
	e.Dir, _ = ioutil.TempDir("", "xvdemo")
	econf, err := mock.NewEnvConfForTest()
	Must(err)
	logs.InitLog(econf.GenConfFilePath(econf.LogConf), e.Dir+"/logs")
	lctx, err := ledger_pkg.NewLedgerCtx(econf, "xuper")
	Must(err)
	lctx.EnvCfg.ChainDir = e.Dir
	if LedgerEngine != "" {
		lctx.LedgerCfg.KVEngineType = LedgerEngine
	}
	gc := genesisConf
	if GenesisExtra != "" {
		gc = append([]byte(`{`+GenesisExtra+`,`), genesisConf[1:]...)
	}
	e.LCtx = lctx
	e.Ledger, err = ledger_pkg.CreateLedger(lctx, gc)
	Must(err)
	e.RootTx, err = txn.GenerateRootTx([]byte(`{"version":"1","consensus":{"miner":"0x0"},"predistribution":[{"address":"` + Bob + `","quota":"10000000"},{"address":"` + Alice + `","quota":"20000000"}],"maxblocksize":"128","period":"5000","award":"1000000"}`))
	Must(err)
	if edit != nil {
		edit(e.RootTx)
		e.RootTx.Txid, _ = txhash.MakeTransactionID(e.RootTx)
	}
	e.Root, _ = e.Ledger.FormatRootBlock([]*pb.Transaction{e.RootTx})
	if !e.Ledger.ConfirmBlock(e.Root, true).Succ {
		panic("genesis not confirmed")
	}
	e.Crypt, err = crypto_client.CreateCryptoClient(crypto_client.CryptoTypeDefault)
	Must(err)
	e.key, err = e.Crypt.GenerateKeyBySeed([]byte("demo-miner-seed-0123456789abcdef"))
	Must(err)
	e.Miner, err = e.Crypt.GetAddressFromPublicKey(&e.key.PublicKey)
	Must(err)
	if withState {
		sctx, err := context.NewStateCtx(econf, "xuper", e.Ledger, e.Crypt)
		Must(err)
		sctx.EnvCfg.ChainDir = e.Dir
		if StateEngine != "" {
			sctx.LedgerCfg.KVEngineType = StateEngine
		}
		e.State, err = state.NewState(sctx)
		Must(err)
		Must(e.State.Play(e.Root.Blockid))
	}
	return e
}

func (e *Env) Close() { os.RemoveAll(e.Dir) }

// BobSpendsGenesisOutput builds a correctly signed transfer of Bob's genesis output (offset).
func (e *Env) BobSpendsGenesisOutput(offset int32, toAlice int64, nonce string) *pb.Transaction {
	tx := &pb.Transaction{Version: 1, Nonce: nonce, Timestamp: time.Now().UnixNano(), Initiator: Bob, AuthRequire: []string{Bob}}
	tx.TxInputs = []*protos.TxInput{{RefTxid: e.RootTx.Txid, RefOffset: offset, FromAddr: []byte(Bob), Amount: big.NewInt(10000000).Bytes()}}
	tx.TxOutputs = []*protos.TxOutput{
		{ToAddr: []byte(Alice), Amount: big.NewInt(toAlice).Bytes()},
		{ToAddr: []byte(Bob), Amount: big.NewInt(10000000 - toAlice).Bytes()},
	}
	sig, err := txhash.ProcessSignTx(e.Crypt, tx, []byte(BobPrivateKey))
	Must(err)
	tx.InitiatorSigns = []*protos.SignatureInfo{{PublicKey: BobPubkey, Sign: sig}}
	tx.AuthRequireSigns = tx.InitiatorSigns
	tx.Txid, _ = txhash.MakeTransactionID(tx)
	return tx
}

// Accepts runs the checks the miner applies to a received block before confirming it
// (ProcBlock's IsValidTx loop and batchConfirmBlock's VerifyBlock; consensus aside).
func (e *Env) Accepts(b *pb.InternalBlock) bool {
	for i, tx := range b.Transactions {
		if !e.Ledger.IsValidTx(i, tx, b) {
			return false
		}
	}
	ok, _ := e.Ledger.VerifyBlock(b, "demo")
	return ok
}

// Block formats a block (coinbase count ncb first, then txs) on top of pre.
func (e *Env) Block(pre []byte, ncb int, tag string, txs ...*pb.Transaction) *pb.InternalBlock {
	list := []*pb.Transaction{}
	for i := 0; i < ncb; i++ {
		a, _ := txn.GenerateAwardTx(e.Miner, "1000000", []byte(fmt.Sprintf("%s-%d", tag, i)))
		list = append(list, a)
	}
	list = append(list, txs...)
	b, err := e.Ledger.FormatBlock(list, []byte(e.Miner), e.key, time.Now().UnixNano(), 0, 0, pre, nil)
	Must(err)
	return b
}

func (e *Env) Show(tag string) {
	b, _ := e.State.GetBalance(Bob)
	a, _ := e.State.GetBalance(Alice)
	m, _ := e.State.GetBalance(e.Miner)
	fmt.Printf("%-28s bob=%s alice=%s miner=%s reported-total=%s\n", tag, b, a, m, e.State.GetTotal())
}

#!/bin/sh
# dev aid: mut.sh <prop> <file> <python-regex-from> <to>  — apply one edit to a scratch copy of /repo and run a property on it
# usage: mut.sh C02 bcs/.../utxo.go 'old text' 'new text'
set -u
prop="$1"; file="$2"; from="$3"; to="$4"
S=/tmp/rv
mkdir -p $S; rsync -a --delete --exclude .git /repo/ $S/
python3 - "$S/$file" "$from" "$to" <<'PY'
import sys
p,a,b=sys.argv[1:4]
s=open(p).read()
if a not in s: print("PATTERN NOT FOUND"); sys.exit(3)
s=s.replace(a,b,1)
open(p,'w').write(s)
PY
[ $? -eq 0 ] || exit 3
(cd $S && GOFLAGS=-mod=mod GOPROXY=off go build ./$(dirname $file)/ 2>&1 | head -5)
mkdir -p /tmp/rvout
/verif/bin/xvc -property "$prop" -repo $S -verif /tmp/rvout 2>&1 | grep -v "^KNOWN-FINDING" | tail -${5:-6}
cp /repo/"$file" $S/"$file"

#!/bin/sh
# dev aid: seedrun.sh <patch.diff> <prop> [<prop>...] — apply a patch to a scratch copy of /repo and run properties on it
set -u
patch="$1"; shift
S=/tmp/rv
mkdir -p $S /tmp/rvout
rsync -a --delete --exclude .git /repo/ $S/
cp /verif/known_findings.json /tmp/rvout/
(cd $S && patch -p1 -s < "$patch") || { echo "PATCH FAILED"; exit 3; }
for p in "$@"; do
  /verif/bin/xvc -property "$p" -repo $S -verif /tmp/rvout 2>&1 | grep -v "^KNOWN-FINDING" | cut -c1-400 | tail -${TAILN:-7}
done

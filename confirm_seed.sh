#!/bin/bash
# dev aid: confirm_seed.sh <srcdir> <id> <x>  — confirm a seeded change in a scratch worktree of /repo HEAD:
#   demo passes on HEAD, fails with the patch; patched tree builds and passes the existing suite.
# writes <srcdir>/confirm.json
set -u
src="$1"; id="$2"; x="$3"
export GOFLAGS=-mod=mod GOPROXY=off GOSUMDB=off GOTOOLCHAIN=local; unset GOWORK
W=/tmp/cs/$id$x
rm -rf $W; git -C /repo worktree prune; git -C /repo worktree add --detach -q $W HEAD || exit 3
demo=$(ls $src/zz_seeded_*_test.go 2>/dev/null | head -1)
dir=$(grep -oE '(bcs|kernel|lib)/[A-Za-z0-9_/.-]+/zz_seeded' $src/DEMO.txt | head -1 | sed 's#/zz_seeded##')
[ -z "$dir" ] && dir=$(grep -oE '\./(bcs|kernel|lib)/[A-Za-z0-9_/.-]+' $src/DEMO.txt | head -1 | sed 's#^\./##; s#/$##')
pat=$(grep -oE "\-run[ =]+'?[A-Za-z0-9_|^$]+'?" $src/DEMO.txt | head -1 | sed -E "s/-run[ =]+//; s/'//g")
[ -z "$pat" ] && pat=Seeded
res() { python3 - "$@" <<'PY'
import json,sys
k=sys.argv[1:]
d=dict(zip(k[::2],k[1::2]))
json.dump(d,open(d['out'],'w'),indent=1)
PY
}
cp $demo $W/$dir/ || { res out $src/confirm.json error "cannot place demo in $dir"; exit 3; }
cd $W
p1=$(go test -vet=off -count=1 -run "$pat" ./$dir/ 2>&1 | grep -E '^(ok|FAIL|---|panic)' | tr '\n' ';' | cut -c1-300)
applied=yes
git apply $src/patch.diff 2>/tmp/cs/$id$x.apply || { patch -p1 -s < $src/patch.diff || applied=no; }
p2=$(go test -vet=off -count=1 -run "$pat" ./$dir/ 2>&1 | grep -E '^(ok|FAIL|---|panic)' | tr '\n' ';' | cut -c1-300)
rm -f $W/$dir/$(basename $demo)
b=$(go build $(go list ./... | grep -v kvdb/badger) 2>&1 | tail -3 | tr '\n' ';')
suite=$(go test -vet=off -count=1 ./... 2>&1 | grep -E '^(--- FAIL|FAIL|panic)' | sort -u | tr '\n' ';' | cut -c1-600)
cd /; git -C /repo worktree remove --force $W
res out $src/confirm.json id "$id$x" dir "$dir" run "$pat" demo_on_head "$p1" patch_applied "$applied" demo_with_patch "$p2" build "$b" suite_failures_with_patch "$suite" head "$(git -C /repo rev-parse --short HEAD)"
cat $src/confirm.json

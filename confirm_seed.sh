#!/bin/bash
# dev aid: confirm_seed.sh <srcdir> <id> <x>  — confirm a seeded change in a scratch worktree of /repo HEAD:
#   demo passes on HEAD, fails with the patch; patched tree builds and passes the existing suite.
# writes <srcdir>/confirm.json. Handles several demonstration files living in different packages.
set -u
src="$1"; id="$2"; x="$3"
export GOFLAGS=-mod=mod GOPROXY=off GOSUMDB=off GOTOOLCHAIN=local; unset GOWORK
W=/tmp/cs/$id$x
rm -rf $W; git -C /repo worktree prune; git -C /repo worktree add --detach -q $W HEAD || exit 3
python3 - "$src" "$W" "$id$x" <<'PY'
import sys,os,re,json,subprocess,shutil
src,W,sid=sys.argv[1:4]
demo=open(src+'/DEMO.txt').read()
files=sorted(f for f in os.listdir(src) if re.match(r'zz_seeded.*_test\.go$',f))
dirs=re.findall(r'((?:bcs|kernel|lib)/[A-Za-z0-9_/.-]+?)/?(?=[\s`\'",;:)]|$)',demo)
dirs=[d.rstrip('/') for d in dirs if os.path.isdir(os.path.join(W,d.rstrip('/')))]
default=dirs[0] if dirs else None
place={}
for f in files:
    m=re.search(r'((?:bcs|kernel|lib)/[A-Za-z0-9_/.-]+)/'+re.escape(f),demo) or re.search(re.escape(f)+r'\s*(?:->|→|to|into)\s*(?:copy\s+)?(?:to\s+|into\s+)?`?((?:bcs|kernel|lib)/[A-Za-z0-9_/.-]+)',demo)
    d=m.group(1).rstrip('/') if m and os.path.isdir(os.path.join(W,m.group(1))) else default
    place[f]=d
pat=re.search(r"-run[ =]+'?\"?([A-Za-z0-9_|^$.*]+)",demo)
pat=pat.group(1) if pat else 'Seeded'
if len(set(place.values()))>1 or True:
    # a pattern that matches every seeded test of this change
    pat=('Seeded|ZZSeeded|'+pat) if not re.search(r'Seeded',pat) else pat
env=dict(os.environ)
def run(cmd):
    p=subprocess.run(cmd,shell=True,cwd=W,env=env,capture_output=True,text=True)
    return p.stdout+p.stderr
def demos():
    out=[]
    for d in sorted(set(place.values())):
        o=run(f"go test -vet=off -count=1 -run '{pat}' ./{d}/")
        out+= [l for l in o.splitlines() if re.match(r'^(ok|FAIL|---|panic)',l)]
    return ';'.join(out)[:400]
res={"id":sid,"dirs":sorted(set(place.values())),"run":pat,"files":place}
if None in place.values() or not files:
    res["error"]="cannot place demo files"; json.dump(res,open(src+'/confirm.json','w'),indent=1); sys.exit(0)
for f,d in place.items(): shutil.copy(os.path.join(src,f),os.path.join(W,d,f))
res["demo_on_head"]=demos()
a=subprocess.run("git apply "+src+"/patch.diff",shell=True,cwd=W,capture_output=True,text=True)
if a.returncode!=0:
    a=subprocess.run("patch -p1 -s < "+src+"/patch.diff",shell=True,cwd=W,capture_output=True,text=True)
res["patch_applied"]="yes" if a.returncode==0 else "no"
res["demo_with_patch"]=demos()
for f,d in place.items(): os.remove(os.path.join(W,d,f))
res["build"]=';'.join(run("go build $(go list ./... | grep -v kvdb/badger)").splitlines()[-3:])
o=run("go test -vet=off -count=1 ./...")
res["suite_failures_with_patch"]=';'.join(sorted(set(l for l in o.splitlines() if re.match(r'^(--- FAIL|FAIL|panic)',l))))[:600]
res["head"]=subprocess.run("git -C /repo rev-parse --short HEAD",shell=True,capture_output=True,text=True).stdout.strip()
res["dir"]=sorted(set(place.values()))[0]
json.dump(res,open(src+'/confirm.json','w'),indent=1)
print(json.dumps(res,indent=1))
PY
cd /; git -C /repo worktree remove --force $W

#!/usr/bin/env python3
"""dev aid: remeasure_seeds.py [ids...] - re-measures which properties report each seeded change on the current rules
and rewrites meta.json:checks_that_report_it (the own property must stay in it; prints a warning otherwise)."""
import sys, os, re, json, subprocess, shutil
ids = sys.argv[1:] or sorted(os.listdir('/verif/seeded'))
S = '/tmp/rvrem'
os.makedirs('/tmp/rvremout', exist_ok=True)
shutil.copy('/verif/known_findings.json', '/tmp/rvremout/')
for d in ids:
    mp = '/verif/seeded/%s/meta.json' % d
    if not os.path.exists(mp):
        continue
    m = json.load(open(mp))
    subprocess.run(['rsync', '-a', '--delete', '--exclude', '.git', '/repo/', S + '/'], check=True)
    p = subprocess.run('patch -p1 -s --no-backup-if-mismatch < /verif/seeded/%s/patch.diff' % d, shell=True, cwd=S, capture_output=True, text=True)
    if p.returncode != 0:
        print(d, 'PATCH FAILED'); continue
    out = subprocess.run(['/verif/bin/xvc', '-property', 'all', '-repo', S, '-verif', '/tmp/rvremout'], capture_output=True, text=True).stdout
    fired = sorted(set(re.findall(r'^VIOLATION property=(C\d\d)', out, re.M)))
    warn = '' if m['property'] in fired else '   <-- OWN PROPERTY SILENT'
    if fired != m.get('checks_that_report_it'):
        print(d, m.get('checks_that_report_it'), '->', fired, warn)
        m['checks_that_report_it'] = fired
        json.dump(m, open(mp, 'w'), indent=1, ensure_ascii=False)
    elif warn:
        print(d, warn)
shutil.rmtree(S, ignore_errors=True)

#!/usr/bin/env python3
# regenerates MANIFEST.json from the list of registered properties in xvc (bin/xvc must be built)
import json,subprocess,re,os
props=[json.loads(l) for l in open('/verif/properties.jsonl')]
# claimed = properties that have a rules file
claimed=sorted({re.match(r'c(\d+)\.go',f).group(1) for f in os.listdir('/verif/xvc/rules') if re.match(r'c\d+\.go',f)})
claimed={'C'+c for c in claimed}
NA=json.load(open('/verif/not_applicable.json')) if os.path.exists('/verif/not_applicable.json') else {}
TECH=json.load(open('/verif/techniques.json')) if os.path.exists('/verif/techniques.json') else {}
checks=[]
for p in props:
    i=p['id']
    if i in claimed and i not in NA:
        t=TECH.get(i,{})
        checks.append({
          "property_id":i,
          "quick_cmd":f"./check.sh {i} quick",
          "thorough_cmd":f"./check.sh {i} thorough",
          "evidence_file":f"evidence/{i}.json",
          "replay_cmd_template":"./bin/xvc -explain {path}",
          "engine":"xvc",
          "level_claimed":{"category":"other","text":t.get("text","structural necessary conditions of the property, decided on every CFG path / call site of /repo's current source; the behaviour itself (values over histories/schedules) is not decided - see DESIGN.md"),"design_ref":"DESIGN.md section 3, "+i},
          "level_note":t.get("note","trusted: go/types, go/ssa (x/tools v0.29.0), the frozen rule tables in xvc/rules/"+i.lower()+".go, library axioms listed in the evidence; clauses over run-time values are not decided"),
          "technique":t.get("technique","static analysis over type-checked SSA: verdict discipline, must-pass-through (CFG reachability with good edges cut), decisive comparison with operand provenance, who-may tables, effect/guard-set comparison")
        })
na=[]
for p in props:
    i=p['id']
    if i in NA: na.append({"property_id":i,"reason":NA[i]})
    elif i not in claimed: na.append({"property_id":i,"reason":"rules not built yet; see DESIGN.md section 3"})
m={"version":1,
 "setup_cmd":"cd xvc && GOFLAGS=-mod=mod GOPROXY=off GOSUMDB=off GOTOOLCHAIN=local GOWORK=off go build -o ../bin/xvc ./cmd/xvc",
 "hooks":{"guard":"verif","enable":"none: static analysis reads the normal build; no hook commits exist","baseline_off_cmd":"cd /repo && GOFLAGS=-mod=mod GOPROXY=off GOSUMDB=off go test -vet=off -count=1 ./...","source_commits":[],"add_only":True},
 "engines":[{"name":"xvc","path":"xvc","serves_properties":sorted(c['property_id'] for c in checks),"kind_free_text":"custom static analyser over go/packages + go/ssa (x/tools v0.29.0): canonical operand provenance, CFG reachability/dominance rules, effect/guard-set comparison, who-may tables, lock sets, field coverage"}],
 "checks":checks,
 "not_applicable":na,
 "notes":"All checks are static: they type-check /repo's working tree with go/packages, build SSA and decide rule instances; no code of /repo is executed, concretely or symbolically. known_findings.json lists genuine defects that are recorded rather than repaired; repaired ones are 'fix:' commits in /repo and listed there as fixed."}
json.dump(m,open('/verif/MANIFEST.json','w'),indent=1)
print("claimed",sorted(c['property_id'] for c in checks),"NA",[n['property_id'] for n in na])
